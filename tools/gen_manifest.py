#!/usr/bin/env python3
"""Regenerate MANIFEST.json from the table below. A property is claimed when vlib/props/cXX.py exists and it is
listed in REGISTERED; everything else goes to not_applicable with its reason."""
import json
import os
import sys

VERIF = os.path.dirname(os.path.dirname(os.path.abspath(__file__)))

# id: (technique, level category, level text, level note)
T = {
 "C01": ("runtime monitor: save/load round-trip oracle + independent byte/text parsers of the written files",
         "exploration",
         "Every writable format is driven with generated trajectories (frame/atom counts around the XTC 9-atom threshold, magnitudes up to the field limit, negative coordinates, non-uniform times, no/orthorhombic/triclinic/per-frame cells, save options); a monitor compares the loaded trajectory with the input within the format's documented quantum and an independent struct/text parser reads the bytes in native units.",
         "Trusts numpy, struct, netCDF4/tables for the container layer of nc/h5; dtr has no independent parser; compressed XTC bodies are checked through the header bounding box and the round trip only."),
 "C02": ("runtime monitor: self-identifying frames + exact numpy slicing oracle over partial-load entry points",
         "exploration",
         "Files of every readable format hold frames whose coordinates identify (frame, atom); load(stride, atom_indices, frame), load_frame, iterload(chunk, stride, skip) and list loads are compared bit-for-bit with numpy slicing of the full load; chunk sizes and chunk counts are checked against a logical bound so a non-terminating generator is decided on steps, not time. Thorough tier enumerates n_frames<=12 x chunk x stride x skip exhaustively.",
         "Assumes md.load(file) of the whole file is the reference (its correctness is C01's subject)."),
 "C03": ("runtime monitor: numpy shadow model over random operation histories + icontract invariants on Trajectory",
         "exploration",
         "Random histories over indexing/slicing/join/stack/atom_slice/centering/superpose/assignment are replayed on the real Trajectory and on a plain-numpy shadow model; after every step all fields are compared bit-for-bit, memory sharing is probed with np.shares_memory and object-identity scans, cached RMSD traces are checked by comparing rmsd(precentered=True) with a from-scratch RMSD, and inputs of analysis/save calls are hashed before and after.",
         "Contracts run single-threaded at method boundaries; in-place array pokes (t.xyz[0]+=1) are outside the alphabet."),
 "C04": ("runtime monitor: topology fingerprints per carrier + icontract structural invariants on Topology",
         "exploration",
         "Random rich topologies (repeated chain ids/resSeq, gaps in serials, virtual sites, typed bonds across residues and chains) go through copy/deepcopy/pickle/subset/join/dataframe/HDF5/PDB; a fingerprint restricted to what each carrier can hold must be preserved, copies must be independent under edits, bond ends must be the topology's own atom objects, and equal topologies must hash equal.",
         "Carrier profiles (which fields HDF5/PDB/dataframe can hold) are read from the format documentation."),
 "C05": ("runtime monitor: differential oracle (float64 brute-force lattice image search) on the distance kernels",
         "exploration",
         "compute_distances/displacements/distances_t/compute_distances_core/find_closest_contact are executed on generated cells (cubic to general triclinic, per-frame varying, unreduced vector forms) with atoms scattered over up to +-50 cells; each reported value is compared with a float64 image search on a reduced lattice basis: lattice congruence of displacements, never below the minimum image, equal to it inside the stated domain, opt/reference agreement.",
         "The lattice is the one the trajectory reports (unitcell_vectors); tolerance 16*eps32*(|x|max + K*Lmax)."),
 "C06": ("runtime monitor: differential oracle (float64 SVD Kabsch) + metamorphic relations + thread sweep on rmsd/superpose",
         "exploration",
         "md.rmsd, Trajectory.superpose, rmsf and lprmsd are executed on random, near-identical, near-planar, mirror-image and far-from-origin conformations for every atom count mod 4; results are compared on msd with a float64 Kabsch reference under a conditioning-aware bound, plus self/symmetry/rigid-motion relations, parallel=True vs False bit-for-bit and interatomic-distance preservation under superpose.",
         "Collinear inputs are outside the property's domain and skipped."),
 "C07": ("runtime monitor: differential oracle (float64 angle/torsion from minimum-image bond vectors) + independent torsion matcher",
         "exploration",
         "compute_angles/compute_dihedrals (opt and reference, periodic and not, all cell classes) are compared with float64 definitions with conditioning-scaled tolerances; reversal and mirror relations are checked; phi/psi/omega/chi index tables are compared with an independent matcher on proteins with chain breaks and missing atoms.",
         "Near-degenerate geometries (bond angle within 1e-3 rad of 0/pi) are skipped for values, still checked for range."),
 "C08": ("runtime monitor: bit-for-bit frame-context / team-size / repetition / junk-memory differential + ThreadSanitizer drivers on an intercepted OpenMP runtime",
         "exploration",
         "Every per-frame analysis is run on the same frames alone, inside a trajectory and permuted, under OpenMP team sizes 1..more-than-frames (in-process and via environment) and repeated; outputs must be bit-identical. The OpenMP kernels that own pragmas (sasa.cpp, neighborlist.cpp) are additionally compiled with -fsanitize=thread against a pthread implementation of the four GOMP entry points so that every report is a race under OpenMP semantics.",
         "Cython prange loops are covered by the bit-for-bit sweeps only (no instrumented interpreter)."),
 "C09": ("runtime monitor: metamorphic relations (rigid motion, lattice shifts) with float64 margin masking",
         "exploration",
         "Observables are recomputed after rotating+translating non-periodic systems and after per-atom integer lattice shifts / whole-system translations of periodic ones; continuous observables must agree within propagated float32 bounds, discrete ones exactly outside a margin band around their thresholds.",
         "SASA is compared within its quadrature bound."),
 "C10": ("runtime monitor: differential oracle (compute_distances + float64 brute force with 1e-5 band) on neighbour searches",
         "exploration",
         "compute_neighbors and compute_neighborlist are executed on clustered/uniform/voxel-boundary/outside-the-cell placements for every cell class and cutoff up to half the cell width; results must equal the brute-force sets (ordered, duplicate-free, symmetric, irreflexive) outside the 1e-5 band.",
         "Ground truth is compute_distances cross-checked against the float64 image search."),
 "C11": ("runtime monitor: lattice-congruence + bond-wholeness oracle on make_molecules_whole / image_molecules",
         "exploration",
         "Molecules (chains, rings, branched, waters in any atom order) are scattered over periodic images and re-imaged; per-atom moves must be lattice vectors, bonded pairs must end at minimum-image separation, minimum-image observables, cells and times must be unchanged and inplace=False must not touch the input.",
         "Molecules longer than half the cell are outside the domain."),
 "C12": ("runtime monitor: reference interpreter for the documented selection language + synonym metamorphics",
         "exploration",
         "Grammar-generated expressions (every keyword/alias/operator spelling; exhaustive to depth 2 in the thorough tier) are evaluated by Topology.select, by eval(select_expression) and by an independent tokenizer+recursive-descent interpreter written from docs/atom_selection.rst; synonym substitution must not change results; malformed strings must raise.",
         "Conventional precedence (comparison, not, and, or) is assumed where the documentation is silent; expressions whose meaning depends on undocumented choices are only used metamorphically."),
 "C13": ("runtime monitor: float64 Shrake-Rupley reference on the documented point set + analytic cases + additivity/subset relations",
         "exploration",
         "shrake_rupley is executed on clusters and proteins over n_sphere_points, probe, radii, modes, atom subsets and 1..12 frames and compared per atom with an independent float64 evaluation on the golden-spiral set (ambiguous points within 1e-5 nm counted into the bound), analytic one- and two-sphere areas, residue = sum of atoms, subset invariance and per-frame independence.",
         "Point set formula taken from the docstring/paper."),
 "C14": ("runtime monitor: float64 reference implementations of Baker-Hubbard / Wernet-Nilsson / Kabsch-Sander with margin bands",
         "exploration",
         "baker_hubbard, wernet_nilsson and kabsch_sander are executed on proteins with hydrogens (perturbed, multi-frame, periodic) and compared as exact sets with references written from the docstrings; elementary decisions within 1e-5 of a threshold are masked.",
         "Donor/acceptor definitions as documented in hbond.py docstrings."),
 "C15": ("runtime monitor: DSSP rule model applied to md.kabsch_sander output, compared with compute_dssp",
         "exploration",
         "compute_dssp is executed on proteins, perturbed/unfolded variants and synthetic patterns; a Python model of the published DSSP rules takes the kabsch_sander H-bond pattern and CA geometry of the same frame and must produce the same codes; NA handling, simplified mapping and shape are checked.",
         "The rule model is written from the publication, not from dssp.cpp; branches that could not be pinned down are excluded and listed."),
 "C16": ("runtime monitor: float64 closed-form oracles for the derived descriptors with label-driven recomputation",
         "exploration",
         "Contacts, centres, rg, tensors and shape descriptors, density, RDF, DRID, order parameters, dipoles and J-couplings are recomputed in float64 from their documented formulas on generated structures/topologies; index bookkeeping is checked through the returned labels.",
         "Eigen-derived quantities compared through invariants."),
 "C17": ("runtime monitor: cell-algebra oracle + cell-presence model over operation histories",
         "exploration",
         "Generated valid cells (special angles, near-degenerate, per-frame) are pushed through the getters/setters; vectors must have the stored lengths/angles in the standard orientation, volumes equal the triple product, rotated descriptions read back the same cell; histories of assignments/slicing/join/stack/save/load must keep a complete cell exactly when the input had one.",
         "Tolerances scale with 1/sin conditioning of the angles."),
 "C18": ("runtime monitor: cursor model (pos, n) shadowing md.open handles over operation sequences, two handles",
         "exploration",
         "Random and (thorough) exhaustive sequences of read/seek/tell/len over every seekable format are executed on real files with self-identifying frames and checked step by step against a two-integer model; capabilities are probed (NotImplementedError = not offered).",
         "Out-of-range operations are not judged; strided reads occur only as unjudged disturbances followed by an absolute seek (their results are C02's subject)."),
 "C19": ("runtime fault injection: SIGKILL at enumerated crash points + writer model over all write compositions",
         "fault_enumeration",
         "Every ordered partition of n<=6 frames is written through one handle per streaming format and compared with the one-shot file; ragged writes are injected at every position and must raise leaving exactly the accepted frames; for h5/nc/dcd/xtc a writer child is SIGKILLed at every announced point after write+flush and the file must load with exactly the frames written.",
         "Crash = process death (page cache survives); power loss is out of scope."),
 "C20": ("runtime monitor: file-system snapshots (sha256/size/mtime/inode) + audit hook over the extension x content table",
         "exploration",
         "For every extension accepted by save/open('w') x pre-existing content class x single/multi frame, force_overwrite=False must raise and leave every pre-existing path byte-identical; force_overwrite=True must fully replace; every read entry point must leave files untouched. The table is enumerated completely.",
         "Native fopen calls are seen only through before/after snapshots in the quick tier."),
}

REGISTERED = []
NOT_YET = "check not built yet in this session (design in DESIGN.md section 3); nothing is claimed"
NA_REASON = {}


def main():
    reg = []
    regfile = os.path.join(VERIF, "tools", "registered.txt")
    if os.path.exists(regfile):
        reg = [l.strip() for l in open(regfile) if l.strip() and not l.startswith("#")]
    checks, na = [], []
    for pid in sorted(T):
        tech, cat, text, note = T[pid]
        if pid in reg and os.path.exists(os.path.join(VERIF, "vlib", "props", pid.lower() + ".py")):
            checks.append(dict(
                property_id=pid,
                quick_cmd=f"./check {pid} --tier quick",
                thorough_cmd=f"./check {pid} --tier thorough",
                evidence_file=f"evidence/{pid}.json",
                replay_cmd_template=f"./check {pid} --replay {{path}}",
                engine="vlib",
                level_claimed=dict(category=cat, text=text, design_ref=f"DESIGN.md section 3 ({pid})"),
                level_note=note,
                technique=tech))
        else:
            na.append(dict(property_id=pid, reason=NA_REASON.get(pid, NOT_YET)))
    man = dict(
        version=1,
        setup_cmd="./check --setup",
        hooks=dict(guard="MDTRAJ_VERIF", enable="no source hooks: instrumentation is applied from outside (overlay build of the working tree, contracts attached at import, OpenMP shim linked into driver builds)",
                   baseline_off_cmd="cd /repo && /venv/bin/python -m pytest -ra -q -p no:cacheprovider --timeout=900 --continue-on-collection-errors",
                   source_commits=[], add_only=True),
        engines=[dict(name="vlib", path="vlib/", serves_properties=[c["property_id"] for c in checks],
                      kind_free_text="runtime monitoring: seeded workloads against the real code rebuilt from the working tree, oracles/monitors in vlib/props, sanitizer and OpenMP-shim drivers in native/")],
        checks=checks,
        notes="All checks: ./check <id> [--tier quick|thorough] [--replay path]; exit 0 held / 1 violation / 2 inconclusive. Known findings: known_findings.json.",
        not_applicable=na)
    with open(os.path.join(VERIF, "MANIFEST.json"), "w") as f:
        json.dump(man, f, indent=1)
    print("claimed:", [c["property_id"] for c in checks])


if __name__ == "__main__":
    sys.exit(main())
