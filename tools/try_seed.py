#!/usr/bin/env python3
"""Evaluate a seeded change:  tools/try_seed.py <dir with patch.diff [+demo.py]> <property id> [more ids] [--tier quick]

1. scratch worktree of /repo HEAD (+ compiled extensions copied in, C/C++ rebuilt in place if the patch touches them)
2. demo.py must FAIL with the patch and PASS without it
3. the given checks are run against the patched worktree (VERIF_REPO) — expected: exit 1 with VIOLATION lines
The worktree is removed afterwards.  Prints a JSON summary on the last line."""
import json
import os
import subprocess
import sys
import time

VERIF = os.path.dirname(os.path.dirname(os.path.abspath(__file__)))
EXT_OF = {"formats/xtc/": ["mdtraj.formats.xtc", "mdtraj.formats.trr"], "formats/dcd/": ["mdtraj.formats.dcd"], "formats/dtr/": ["mdtraj.formats.dtr"],
          "rmsd/": ["mdtraj._rmsd", "mdtraj._lprmsd"], "geometry/src/sasa": ["mdtraj.geometry._geometry"], "geometry/src/dssp": ["mdtraj.geometry._geometry"],
          "geometry/src/geometry": ["mdtraj.geometry._geometry"], "geometry/src/kernels": ["mdtraj.geometry._geometry"],
          "geometry/include": ["mdtraj.geometry._geometry", "mdtraj.geometry.drid", "mdtraj.geometry.neighbors", "mdtraj.geometry.neighborlist"],
          "geometry/src/drid": ["mdtraj.geometry.drid"], "geometry/src/moments": ["mdtraj.geometry.drid"],
          "geometry/src/neighbors": ["mdtraj.geometry.neighbors"], "geometry/src/neighborlist": ["mdtraj.geometry.neighborlist"]}


def sh(cmd, **kw):
    return subprocess.run(cmd, shell=isinstance(cmd, str), stdout=subprocess.PIPE, stderr=subprocess.STDOUT, text=True, **kw)


def main():
    args = [a for a in sys.argv[1:] if not a.startswith("--")]
    tier = "quick"
    if "--tier" in sys.argv:
        tier = sys.argv[sys.argv.index("--tier") + 1]
        args.remove(tier)
    sdir, props = os.path.abspath(args[0]), args[1:]
    patch = os.path.join(sdir, "patch.diff")
    demo = os.path.join(sdir, "demo.py")
    wt = f"/tmp/wt_eval_{os.path.basename(sdir)}_{os.getpid()}"
    out = dict(seed=os.path.basename(sdir), props=props, tier=tier)
    try:
        r = sh(["/tmp/seedtools/setup_worktree.sh", wt])
        if r.returncode:
            raise SystemExit("worktree setup failed: " + r.stdout)
        native = sorted({e for l in open(patch) if l.startswith("+++ ") for k, v in EXT_OF.items() if k in l and l.strip().endswith((".c", ".cpp", ".h", ".hpp", ".cxx"))
                         for e in v})
        if os.path.exists(demo):
            r0 = sh(["/venv/bin/python", demo], cwd=wt, timeout=1200)
            out["demo_without"] = "pass" if r0.returncode == 0 else "FAIL: " + r0.stdout[-300:]
        r = sh(["git", "apply", patch], cwd=wt)
        if r.returncode:
            out["apply"] = "FAILED: " + r.stdout[-400:]
            print(json.dumps(out))
            return 2
        if native:
            rb = sh(["/tmp/seedtools/rebuild_ext.py", wt] + native)
            out["rebuilt"] = native if rb.returncode == 0 else "REBUILD FAILED: " + rb.stdout[-400:]
        if os.path.exists(demo):
            r1 = sh(["/venv/bin/python", demo], cwd=wt, timeout=1200)
            out["demo_with"] = "fails (as intended)" if r1.returncode != 0 else "PASSES (demo does not show the break)"
        env = dict(os.environ, VERIF_REPO=wt, VERIF_OUT="/var/tmp/seed_out_verif")
        out["checks"] = {}
        for p in props:
            t0 = time.time()
            rc = sh([os.path.join(VERIF, "check"), p, "--tier", tier], env=env, cwd=VERIF, timeout=7200)
            keys = [l.strip().split(" occurrences")[0].replace("key=", "") for l in rc.stdout.splitlines() if l.strip().startswith("key=")]
            out["checks"][p] = dict(exit=rc.returncode, caught=rc.returncode == 1, keys=keys[:8], wall=round(time.time() - t0, 1),
                                    inconclusive=[l for l in rc.stdout.splitlines() if l.startswith("INCONCLUSIVE")][:3])
    finally:
        sh(["git", "-C", "/repo", "worktree", "remove", "--force", wt])
        sh(["rm", "-rf", wt])
    print(json.dumps(out))
    try:
        json.dump(out, open(os.path.join("/var/tmp/seed_results", os.path.basename(sdir) + ".json"), "w"), indent=1)
    except Exception:
        pass
    return 0


if __name__ == "__main__":
    sys.exit(main())
