#!/usr/bin/env python3
"""Archive an evaluated seeded change:  tools/archive_seed.py <seed dir under /tmp/seed_out> "<check_result text>"
Merges /var/tmp/seed_results/<seed>.json (written by tools/try_seed.py) into meta.json and copies
patch.diff, demo.py, meta.json to seeded/<seed>/."""
import json
import os
import shutil
import sys

V = os.path.dirname(os.path.dirname(os.path.abspath(__file__)))
sdir = os.path.abspath(sys.argv[1])
sid = os.path.basename(sdir)
res = json.load(open(f"/var/tmp/seed_results/{sid}.json"))
m = json.load(open(os.path.join(sdir, "meta.json")))
assert res.get("demo_without") == "pass" and str(res.get("demo_with", "")).startswith("fails"), res
prop, chk = next(iter(res["checks"].items()))
m.update(property_checked=prop, source="independent sub-agent given only the property text and a scratch worktree",
         confirmed_by_me="tools/try_seed.py: scratch worktree of /repo HEAD (+ in-place rebuild of touched C/C++); demo.py passes without the patch and "
                         "fails with it; patch applies with git apply; " + (sys.argv[3] if len(sys.argv) > 3 else ""),
         check_result=sys.argv[2], violation_keys=chk["keys"],
         ran=f"VERIF_REPO=<patched worktree> ./check {prop} --tier {res['tier']}  -> exit {chk['exit']} ({chk['wall']} s)")
dst = os.path.join(V, "seeded", sid)
os.makedirs(dst, exist_ok=True)
for f in ("patch.diff", "demo.py"):
    shutil.copy(os.path.join(sdir, f), dst)
json.dump(m, open(os.path.join(dst, "meta.json"), "w"), indent=1)
print("archived", dst, chk["exit"], chk["keys"][:3])
