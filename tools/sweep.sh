#!/bin/bash
# usage: tools/sweep.sh <tier> <seed> [props...]   -> one line per property in /var/tmp/sweep_<tier>_<seed>.log (evidence redirected)
tier=$1; seed=$2; shift 2
props=${@:-C01 C02 C03 C04 C05 C06 C07 C08 C09 C10 C11 C12 C13 C14 C15 C16 C17 C18 C19 C20}
log=/var/tmp/sweep_${tier}_${seed}.log; : > $log
cd "$(dirname "$0")/.."
for p in $props; do
  s=$(date +%s)
  out=$(VERIF_SEED=$seed VERIF_OUT=/var/tmp/sweep_out_${tier}_${seed} timeout 14000 ./check $p --tier $tier 2>&1); rc=$?
  echo "$p rc=$rc wall=$(( $(date +%s) - s ))s $(echo "$out" | grep -E '^C[0-9]+ tier' | cut -c1-120)" >> $log
  echo "$out" | grep -E "VIOLATION|INCONCLUSIVE|^  key=" | cut -c1-300 >> $log
done
echo DONE >> $log
